(* C05 proofs, part 2: abs/rel rule, bounds, agreement of the two full
   trimming routines, reported error, renormalisation factor. *)
From Coq Require Import ZArith QArith Lqa List Bool Lia ZifyBool Sorting.Sorted.
From QV Require Import C05.Model C05.Proofs.
Import ListNotations.
Open Scope Q_scope.

(* --------------------------------------------------------- abs / rel modes *)

Definition sorted_desc (s : list Q) : Prop := StronglySorted (fun a b => b <= a) s.

Lemma cnt_none : forall A (f : A -> bool) l, Forall (fun x => f x = false) l -> cnt f l = 0%nat.
Proof. intros A f l H. induction H; [reflexivity|]. rewrite cnt_cons, H, IHForall. reflexivity. Qed.

Lemma sorted_count_prefix : forall thr s, sorted_desc s ->
  Forall (fun x => thr < x) (firstn (cnt (gt thr) s) s) /\
  Forall (fun x => x <= thr) (skipn (cnt (gt thr) s) s).
Proof.
  intros thr s H. induction H as [|x r Hr IH Hx].
  - cbn. split; constructor.
  - rewrite cnt_cons. unfold gt at 1 3. destruct (Qltb thr x) eqn:E.
    + apply Qltb_lt in E. cbn [b2n Nat.add firstn skipn]. destruct IH as [A B]. split; [constructor; assumption|exact B].
    + apply Qltb_ge in E.
      assert (Z0 : cnt (gt thr) r = 0%nat).
      { apply cnt_none. eapply Forall_impl; [|exact Hx]. cbn. intros y Hy. unfold gt. apply Qltb_ge. lra. }
      rewrite Z0. cbn [b2n Nat.add firstn skipn]. split; [constructor|].
      constructor; [exact E|]. eapply Forall_impl; [|exact Hx]. cbn. intros; lra.
Qed.

Lemma Forall_firstn_nth : forall (P : Q -> Prop) k s j, Forall P (firstn k s) -> (j < k)%nat -> (j < List.length s)%nat ->
  P (nth j s 0).
Proof.
  intros P k. induction k; intros s j H Hj Hl; [lia|]. destruct s as [|x r]; [cbn in Hl; lia|].
  cbn [firstn] in H. inversion H; subst. destruct j; [exact H2|]. cbn [nth]. cbn [List.length] in Hl.
  apply IHk; [exact H3|lia|lia].
Qed.

Lemma Forall_skipn_more : forall (P : Q -> Prop) a b s, (a <= b)%nat -> Forall P (skipn a s) -> Forall P (skipn b s).
Proof.
  intros P a b s. revert a b. induction s as [|x r IH]; intros a b Hab H.
  - destruct b; constructor.
  - destruct a as [|a'].
    + cbn [skipn] in H. clear Hab IH. revert H. generalize (x :: r). induction b; intros l H; [exact H|].
      destruct l; [constructor|]. inversion H; subst. cbn [skipn]. auto.
    + destruct b as [|b']; [lia|]. cbn [skipn] in *. apply (IH a' b'); [lia|exact H].
Qed.

(* the threshold a single value is compared with *)
Definition absrel_thr (m : cmode) (cutoff : Q) (s : list Q) : Q :=
  match m with Rel => cutoff * hd 0 s | _ => cutoff end.

Lemma absrel_raw : forall m c s, is_sum_mode m = false ->
  n_nchi_raw m c s = Z.of_nat (cnt (gt (absrel_thr m c s)) s) /\
  g_nchi_dynamic m c s = Z.of_nat (cnt (gt (absrel_thr m c s)) s).
Proof. intros m c s H. destruct m; try discriminate H; split; reflexivity. Qed.

Lemma absrel_rule : forall m cutoff s, is_sum_mode m = false -> sorted_desc s -> s <> [] ->
  let n0 := n_nchi_dynamic m cutoff s in
  let thr := absrel_thr m cutoff s in
  (1 <= n0 <= lenZ s)%Z
  /\ Forall (fun x => x <= thr) (skipn (Z.to_nat n0) s)
  /\ ((1 < n0)%Z -> thr < nth (Z.to_nat (n0 - 1)) s 0).
Proof.
  intros m cutoff s Hm Hs Hne n0 thr. unfold n0, n_nchi_dynamic.
  destruct (absrel_raw m cutoff s Hm) as [R _]. rewrite R. fold thr.
  pose proof (cnt_le _ (gt thr) s) as L. destruct (sorted_count_prefix thr s Hs) as [A B].
  set (k := cnt (gt thr) s) in *.
  assert (Hd : (0 < List.length s)%nat) by (destruct s; [congruence|cbn; lia]).
  unfold lenZ. split; [lia|]. split.
  - apply (Forall_skipn_more _ k); [lia|exact B].
  - intro H1. apply (Forall_firstn_nth _ k); [exact A|lia|lia].
Qed.

(* ------------------------------------------------- agreement of the counts *)

Lemma dyn_agree : forall m cutoff s, nonneg s -> s <> [] ->
  Z.min (lenZ s) (Z.max (g_nchi_dynamic m cutoff s) 1) = n_nchi_dynamic m cutoff s.
Proof.
  intros m cutoff s Hs Hne. destruct (is_sum_mode m) eqn:Hm.
  - apply dyn_agree_sum; assumption.
  - unfold n_nchi_dynamic. destruct (absrel_raw m cutoff s Hm) as [R G]. rewrite R, G.
    pose proof (cnt_le _ (gt (absrel_thr m cutoff s)) s).
    assert (Hd : (0 < List.length s)%nat) by (destruct s; [congruence|cbn; lia]).
    unfold lenZ. lia.
Qed.

Lemma dyn_agree_exact : forall m cutoff s, nonneg s -> s <> [] -> 0 <= cutoff ->
  Z.max (g_nchi_dynamic m cutoff s) 1 = n_nchi_dynamic m cutoff s.
Proof.
  intros m cutoff s Hs Hne Hc. pose proof (dyn_agree m cutoff s Hs Hne) as D.
  destruct (is_sum_mode m) eqn:Hm.
  - rewrite (generic_dyn_char m Hm cutoff s) in *.
    pose proof (suf_relation (n_target m cutoff s) (map (powq (mode_pow m)) s)) as R.
    assert (Ht : 0 <= n_target m cutoff s).
    { unfold n_target. destruct (is_rel_sum m); [|exact Hc].
      pose proof (sumQ_nonneg _ (nonneg_map_powq (mode_pow m) s Hs)). nra. }
    assert (E0 : Qltb (n_target m cutoff s) 0 = false) by (apply Qltb_ge; exact Ht).
    rewrite E0 in R. cbn [b2n] in R.
    pose proof (cf_le m cutoff s) as L. unfold lenZ in *.
    assert (Hd : (0 < List.length (map (powq (mode_pow m)) s))%nat).
    { rewrite map_length. destruct s; [congruence|cbn; lia]. }
    pose proof (thresh (n_target m cutoff s) _ (nonneg_map_powq (mode_pow m) s Hs) 0%nat Hd) as T0.
    cbn [skipn] in T0. rewrite map_length in Hd.
    destruct (Qltb (n_target m cutoff s) (sumQ (map (powq (mode_pow m)) s))) eqn:E1; cbn [b2n] in R; [lia|].
    assert (cnt (gt (n_target m cutoff s)) (fsuf (map (powq (mode_pow m)) s)) = 0)%nat.
    { destruct (cnt (gt (n_target m cutoff s)) (fsuf (map (powq (mode_pow m)) s))) eqn:C; [reflexivity|].
      assert (n_target m cutoff s < sumQ (map (powq (mode_pow m)) s)) by (apply T0; lia).
      apply Qltb_lt in H. congruence. }
    lia.
  - destruct (absrel_raw m cutoff s Hm) as [R G]. unfold n_nchi_dynamic. rewrite R, G. reflexivity.
Qed.

Lemma lenZ_pos : forall (s : list Q), s <> [] -> (1 <= lenZ s)%Z.
Proof. intros s H. unfold lenZ. destruct s; [congruence|cbn [List.length]; lia]. Qed.

Lemma len_py_take : forall (k : Z) (l : list Q), (0 <= k)%Z -> lenZ (py_take k l) = Z.min k (lenZ l).
Proof.
  intros k l H. unfold py_take. destruct (k <? 0)%Z eqn:E; [lia|]. unfold lenZ. rewrite firstn_length. lia.
Qed.

Definition cap (max_bond n : Z) : Z := if (0 <? max_bond)%Z then Z.min n max_bond else n.
Definition dynamic (cutoff : Q) (renorm : Z) : bool := Qltb 0 cutoff || (0 <? renorm)%Z.

Lemma n_dyn_ge1 : forall m c s, (1 <= n_nchi_dynamic m c s)%Z.
Proof. intros. unfold n_nchi_dynamic. lia. Qed.

Lemma n_kept_char : forall m c mb rn s, (mb = -1 \/ 1 <= mb)%Z -> s <> [] ->
  n_kept m c mb rn s =
  if dynamic c rn then Z.min (lenZ s) (cap mb (n_nchi_dynamic m c s))
  else Z.min (lenZ s) (if (0 <? mb)%Z then mb else lenZ s).
Proof.
  intros m c mb rn s Hmb Hne. unfold n_kept, n_trim, dynamic, cap.
  pose proof (n_dyn_ge1 m c s) as N1. pose proof (lenZ_pos s Hne) as D1.
  destruct (Qltb 0 c || (0 <? rn)%Z).
  - destruct (0 <? mb)%Z eqn:Emb.
    + destruct (Z.min (n_nchi_dynamic m c s) mb <? lenZ s)%Z eqn:E; cbn [t_svals].
      * rewrite len_py_take by lia. lia.
      * lia.
    + destruct (n_nchi_dynamic m c s <? lenZ s)%Z eqn:E; cbn [t_svals].
      * rewrite len_py_take by lia. lia.
      * lia.
  - destruct (negb (mb =? -1)%Z && (mb <? lenZ s)%Z) eqn:E; cbn [t_svals].
    + rewrite len_py_take by lia. destruct (0 <? mb)%Z eqn:Emb; lia.
    + destruct (0 <? mb)%Z eqn:Emb; lia.
Qed.

Lemma g_kept_char : forall m c mb rn s,
  g_kept m c mb rn s =
  if dynamic c rn then Z.min (lenZ s) (cap mb (Z.max (g_nchi_dynamic m c s) 1))
  else Z.min (lenZ s) (if (0 <? mb)%Z then mb else lenZ s).
Proof.
  intros. unfold g_kept, g_nchi, dynamic, cap.
  destruct (Qltb 0 c || (0 <? rn)%Z); destruct (0 <? mb)%Z eqn:Emb;
    match goal with |- (if (?a <? ?b)%Z then _ else _) = _ => destruct (a <? b)%Z eqn:E end; lia.
Qed.

Theorem kept_agree : forall m c mb rn s, nonneg s -> s <> [] -> (mb = -1 \/ 1 <= mb)%Z ->
  g_kept m c mb rn s = n_kept m c mb rn s.
Proof.
  intros m c mb rn s Hs Hne Hmb. rewrite g_kept_char, n_kept_char by assumption.
  pose proof (dyn_agree m c s Hs Hne) as D. pose proof (n_dyn_ge1 m c s).
  destruct (dynamic c rn); [|reflexivity]. unfold cap. destruct (0 <? mb)%Z; lia.
Qed.

Theorem kept_bounds : forall m c mb rn s, s <> [] -> (mb = -1 \/ 1 <= mb)%Z ->
  let bound := Z.max 1 (Z.min (lenZ s) (if (0 <? mb)%Z then mb else lenZ s)) in
  (1 <= n_kept m c mb rn s <= bound)%Z /\ (1 <= g_kept m c mb rn s <= bound)%Z.
Proof.
  intros m c mb rn s Hne Hmb bound. unfold bound. rewrite g_kept_char, n_kept_char by assumption.
  pose proof (n_dyn_ge1 m c s). pose proof (lenZ_pos s Hne). unfold cap.
  destruct (dynamic c rn); destruct (0 <? mb)%Z eqn:E; lia.
Qed.

(* --------------------------------------------- agreement of the full result *)

Definition rn_equiv (a b : option (Z * Q * Q)) : Prop :=
  match a, b with
  | None, None => True
  | Some (p, x, y), Some (p', x', y') => p = p' /\ x == x' /\ y == y'
  | _, _ => False
  end.
Definition trim_equiv (r1 r2 : trim) : Prop :=
  t_svals r1 = t_svals r2 /\ t_err2 r1 == t_err2 r2 /\ rn_equiv (t_rn r1) (t_rn r2).

Theorem trim_agree : forall m c mb rn s, nonneg s -> s <> [] -> (mb = -1 \/ 1 <= mb)%Z ->
  trim_equiv (g_trim m c mb rn s) (n_trim m c mb rn s).
Proof.
  intros m c mb rn s Hs Hne Hmb.
  pose proof (dyn_agree m c s Hs Hne) as D. pose proof (n_dyn_ge1 m c s) as N1. pose proof (lenZ_pos s Hne) as D1.
  unfold g_trim, n_trim, g_nchi.
  destruct (Qltb 0 c || (0 <? rn)%Z) eqn:Edyn.
  - (* dynamic branch *)
    set (ng := if (0 <? mb)%Z then Z.min (Z.max (g_nchi_dynamic m c s) 1) mb else Z.max (g_nchi_dynamic m c s) 1).
    set (nn := if (0 <? mb)%Z then Z.min (n_nchi_dynamic m c s) mb else n_nchi_dynamic m c s).
    assert (Hmin : Z.min (lenZ s) ng = Z.min (lenZ s) nn) by (unfold ng, nn; destruct (0 <? mb)%Z; lia).
    destruct (ng <? lenZ s)%Z eqn:Eg.
    + assert (Hnn : nn = ng) by lia. rewrite Hnn, Eg.
      assert (Hng1 : (1 <= ng)%Z) by (unfold ng; destruct (0 <? mb)%Z eqn:E; lia).
      destruct (0 <? rn)%Z eqn:Ern.
      * unfold trim_equiv. cbn [t_svals t_rn t_err2]. split; [reflexivity|]. split; [reflexivity|].
        unfold n_renorm, rn_equiv. split; [reflexivity|]. split.
        -- rewrite sumQ_firstn_skipn. reflexivity.
        -- unfold py_take. destruct (ng <? 0)%Z eqn:E0; [lia|]. reflexivity.
      * unfold trim_equiv. cbn [t_svals t_rn t_err2 rn_equiv]. split; [reflexivity|]. split; [reflexivity|exact I].
    + assert (Enn : (nn <? lenZ s)%Z = false) by lia. rewrite Enn.
      unfold trim_equiv. cbn [t_svals t_rn t_err2 rn_equiv]. split; [reflexivity|]. split; [reflexivity|exact I].
  - (* static branch *)
    assert (Ern : (0 <? rn)%Z = false) by (apply orb_false_iff in Edyn; tauto).
    destruct (0 <? mb)%Z eqn:Emb.
    + assert (Eneq : negb (mb =? -1)%Z = true) by lia. rewrite Eneq. cbn [andb].
      destruct (mb <? lenZ s)%Z eqn:E.
      * rewrite Ern. unfold trim_equiv. cbn [t_svals t_rn t_err2 rn_equiv]. split; [reflexivity|]. split; [reflexivity|exact I].
      * unfold trim_equiv. cbn [t_svals t_rn t_err2 rn_equiv]. split; [reflexivity|]. split; [reflexivity|exact I].
    + assert (Eneq : negb (mb =? -1)%Z = false) by lia. rewrite Eneq. cbn [andb].
      rewrite Z.ltb_irrefl. unfold trim_equiv. cbn [t_svals t_rn t_err2 rn_equiv]. split; [reflexivity|]. split; [reflexivity|exact I].
Qed.

(* -------------------------------------------------------- reported error *)

Lemma sumsq_split : forall n s, sumsq (firstn n s) + sumsq (skipn n s) == sumsq s.
Proof. intros. unfold sumsq. rewrite <- firstn_map, <- skipn_map. apply sumQ_firstn_skipn. Qed.

Lemma py_take_drop_sumsq : forall k (s : list Q), (0 <= k)%Z -> sumsq (py_take k s) + sumsq (py_drop k s) == sumsq s.
Proof.
  intros k s H. unfold py_take, py_drop. destruct (k <? 0)%Z eqn:E; [lia|]. apply sumsq_split.
Qed.

Theorem numba_error_is_discarded_weight : forall m c mb rn s, (mb = -1 \/ 1 <= mb)%Z ->
  let r := n_trim m c mb rn s in t_err2 r == sumsq s - sumsq (t_svals r).
Proof.
  intros m c mb rn s Hmb r. unfold r, n_trim. pose proof (n_dyn_ge1 m c s).
  destruct (Qltb 0 c || (0 <? rn)%Z).
  - destruct (0 <? mb)%Z eqn:Emb;
      match goal with |- context [(?a <? ?b)%Z] => destruct (a <? b)%Z eqn:E end; cbn [t_err2 t_svals]; try lra;
      match goal with |- sumsq (py_drop ?k s) == _ => pose proof (py_take_drop_sumsq k s ltac:(lia)) end; lra.
  - destruct (negb (mb =? -1)%Z && (mb <? lenZ s)%Z) eqn:E; cbn [t_err2 t_svals]; [|lra].
    pose proof (py_take_drop_sumsq mb s ltac:(lia)). lra.
Qed.

Theorem generic_error_is_discarded_weight : forall m c mb rn s, (mb = -1 \/ 1 <= mb)%Z ->
  let r := g_trim m c mb rn s in t_err2 r == sumsq s - sumsq (t_svals r).
Proof.
  intros m c mb rn s Hmb r. unfold r, g_trim.
  assert (N1 : (1 <= g_nchi m c mb rn s)%Z \/ (lenZ s <= g_nchi m c mb rn s)%Z).
  { unfold g_nchi. destruct (Qltb 0 c || (0 <? rn)%Z); destruct (0 <? mb)%Z eqn:E; lia. }
  destruct (g_nchi m c mb rn s <? lenZ s)%Z eqn:E.
  - pose proof (py_take_drop_sumsq (g_nchi m c mb rn s) s ltac:(lia)) as S.
    destruct (0 <? rn)%Z; cbn [t_err2 t_svals]; lra.
  - cbn [t_err2 t_svals]. lra.
Qed.

(* ------------------------------------------------------------ renorm factor *)

Theorem numba_renorm_char : forall s n rn, (0 <= n)%Z ->
  let pw := fun x => if (2 <=? rn)%Z then Qpower x rn else x in
  let '(p, num, den) := n_renorm s n rn in
  p = (if (2 <=? rn)%Z then rn else 1%Z)
  /\ num == sumQ (map pw s)
  /\ den == sumQ (map pw (firstn (Z.to_nat n) s)).
Proof.
  intros s n rn Hn pw. unfold n_renorm. fold pw. split; [reflexivity|]. split.
  - apply sumQ_firstn_skipn.
  - rewrite firstn_map. reflexivity.
Qed.

(* ----------------------------------------------- statements used by Props.v *)

Lemma sum_rule_stmt : forall m cutoff s, is_sum_mode m = true -> nonneg s -> s <> [] ->
  0 <= n_target m cutoff s ->
  let n0 := n_nchi_dynamic m cutoff s in
  (1 <= n0 <= lenZ s)%Z
  /\ disc (mode_pow m) s n0 <= n_target m cutoff s
  /\ ((1 < n0)%Z -> n_target m cutoff s < disc (mode_pow m) s (n0 - 1)).
Proof. intros m cutoff s Hm Hs. exact (sum_rule m Hm cutoff s Hs). Qed.

Lemma count_agree_stmt : forall m cutoff s, nonneg s -> s <> [] ->
  Z.min (lenZ s) (Z.max (g_nchi_dynamic m cutoff s) 1) = n_nchi_dynamic m cutoff s
  /\ (0 <= cutoff -> Z.max (g_nchi_dynamic m cutoff s) 1 = n_nchi_dynamic m cutoff s).
Proof. intros m cutoff s Hs Hne. split; [apply dyn_agree; assumption|apply dyn_agree_exact; assumption]. Qed.

Lemma error_stmt : forall m cutoff max_bond renorm s, (max_bond = -1 \/ 1 <= max_bond)%Z ->
  (let r := n_trim m cutoff max_bond renorm s in t_err2 r == sumsq s - sumsq (t_svals r))
  /\ (let r := g_trim m cutoff max_bond renorm s in t_err2 r == sumsq s - sumsq (t_svals r)).
Proof.
  intros m cutoff max_bond renorm s H. split.
  - exact (numba_error_is_discarded_weight m cutoff max_bond renorm s H).
  - exact (generic_error_is_discarded_weight m cutoff max_bond renorm s H).
Qed.

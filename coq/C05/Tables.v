(* C05 proofs, part 3: finite tables (absorb codes, isometry flags, driver
   contract table) proved exhaustively, and the functools.cache model. *)
From Coq Require Import ZArith QArith List Bool Lia String.
From QV Require Import C05.Model.
Import ListNotations.
Open Scope Z_scope.

Lemma forallb_In : forall A (f : A -> bool) l, forallb f l = true -> forall x, In x l -> f x = true.
Proof. intros A f l H x Hx. rewrite forallb_forall in H. auto. Qed.

(* ----------------------------------------------------------- absorb table *)

(* what must hold of the triple returned for one absorb code *)
Definition absorb_entry_ok (a : option Z) : bool :=
  match do_absorb a with
  | None => false
  | Some (l, sret, r) =>
      (* returned factors are exactly the requested ones *)
      Bool.eqb (code_in a returns_left_absorbs) (negb (lfac_eqb l LNone))
      && Bool.eqb (code_in a returns_right_absorbs) (negb (rfac_eqb r RNone))
      (* s is returned iff nothing was absorbed into a returned factor *)
      && Bool.eqb sret ((lpow2 l =? 0) && (rpow2 r =? 0) && (code_eqb a None || code_eqb a (Some get_s)))
      (* two-sided forms multiply back to U diag(s) VH: powers of s add up to one *)
      && (if negb (lfac_eqb l LNone) && negb (rfac_eqb r RNone)
          then lpow2 l + (if sret then 2 else 0) + rpow2 r =? 2 else true)
      (* single-factor forms carry s^0, s^(1/2) or s^1, never more *)
      && (lpow2 l + rpow2 r <=? 2)
      (* accelerated table is the same *)
      && (let '(l', s', r') := do_absorb_numba a in lfac_eqb l l' && Bool.eqb sret s' && rfac_eqb r r')
  end.

Lemma absorb_table_ok : forall a, In a all_codes -> absorb_entry_ok a = true.
Proof. apply forallb_In. vm_compute. reflexivity. Qed.

(* isometry flags of parse_split_left_right_isom vs the absorb table: a factor
   is flagged isometric iff it is the bare U (resp. VH) *)
Definition flags_of_code (c : option Z) : bool * bool :=
  (code_in c [None; Some get_U_sVH; Some get_U], code_in c [None; Some get_Us_VH; Some get_VH]).

Definition flag_entry_ok (a : option Z) : bool :=
  match do_absorb a with
  | None => false
  | Some (l, _, r) => Bool.eqb (fst (flags_of_code a)) (lfac_eqb l LU) && Bool.eqb (snd (flags_of_code a)) (rfac_eqb r RVH)
  end.

Lemma flag_table_ok : forall a, In a all_codes -> flag_entry_ok a = true.
Proof. apply forallb_In. vm_compute. reflexivity. Qed.

(* _ABSORB_TRANSPOSE_MAP is an involution that swaps the roles of the factors *)
Definition transpose_entry_ok (a : option Z) : bool :=
  code_eqb (absorb_transpose (absorb_transpose a)) a
  && code_in (absorb_transpose a) all_codes
  && match do_absorb a, do_absorb (absorb_transpose a) with
     | Some (l, s1, r), Some (l', s2, r') => lfac_eqb l' (l_of_r r) && rfac_eqb r' (r_of_l l) && Bool.eqb s1 s2
     | _, _ => false
     end.

Lemma transpose_table_ok : forall a, In a all_codes -> transpose_entry_ok a = true.
Proof. apply forallb_In. vm_compute. reflexivity. Qed.

(* codes outside the table are rejected by the generic routine *)
Lemma do_absorb_rejects : forall a, code_in a all_codes = false -> do_absorb a = None.
Proof.
  intros [c|]; [|vm_compute; discriminate]. unfold code_in, all_codes, existsb, code_eqb, do_absorb.
  unfold get_s, get_Usq, get_VH, get_Us, get_Us_VH, get_Usq_sqVH, get_U_sVH, get_U, get_sVH, get_sqVH.
  intro H. repeat match goal with |- context [(c =? ?k)] => destruct (c =? k) eqn:?; try (cbn in H; lia) end.
  reflexivity.
Qed.

(* aliases: every alias maps into the table and every code has an alias *)
Lemma aliases_ok :
  forallb (fun p => code_in (snd p) all_codes) absorb_aliases = true
  /\ forallb (fun c => existsb (fun p => code_eqb (snd p) c) absorb_aliases) all_codes = true.
Proof. split; vm_compute; reflexivity. Qed.

(* ------------------------------------------------ isometry flags per method *)

Definition all_aargs : list aarg := AAuto :: map ACode all_codes.

(* for one (method, absorb) request on a matrix of shape class `sh`: the flags
   handed to Tensor(left_inds=...) are sound w.r.t. what the resolved driver returns *)
Definition isom_sound_entry (m : meth) (sh : shape) (a : aarg) : bool :=
  let '(m', c) := parse_method_absorb m a true in
  let '(fl, fr) := parse_isom m a in
  match driver_returns m' sh c with
  | None => true                      (* rejected: no tensor is built *)
  | Some (l, _, r) =>
      (negb fl || lfac_eqb l LU || lfac_eqb l LNone) && (negb fr || rfac_eqb r RVH || rfac_eqb r RNone)
  end.

(* the only (method, shape) pairs for which a flagged factor is not an isometry:
   the unitary-like factor W VH of a polar decomposition of a non-square matrix *)
Definition polar_non_square (m : meth) (sh : shape) : bool :=
  (meth_eqb m MPolarRight && (shape_id sh =? shape_id Wide)) || (meth_eqb m MPolarLeft && (shape_id sh =? shape_id Tall)).

Lemma isom_flags_sound_all : forall m sh a, In m all_meths -> In sh all_shapes -> In a all_aargs ->
  polar_non_square m sh = false -> isom_sound_entry m sh a = true.
Proof.
  intros m sh a Hm Hsh Ha Hp.
  assert (T : forallb (fun m => forallb (fun sh => forallb (fun a => polar_non_square m sh || isom_sound_entry m sh a)
              all_aargs) all_shapes) all_meths = true) by (vm_compute; reflexivity).
  pose proof (forallb_In _ _ _ (forallb_In _ _ _ (forallb_In _ _ _ T m Hm) sh Hsh) a Ha) as E. cbn beta in E.
  rewrite Hp in E. exact E.
Qed.

(* still open in the fixed code: polar_right on a wide / polar_left on a tall matrix *)
Lemma isom_flags_polar_non_square_refuted :
  isom_sound_entry MPolarRight Wide AAuto = false /\ isom_sound_entry MPolarLeft Tall AAuto = false
  /\ (forall a, In a all_aargs -> a <> ACode None ->
        isom_sound_entry MPolarRight Wide a = false /\ isom_sound_entry MPolarLeft Tall a = false).
Proof.
  split; [vm_compute; reflexivity|]. split; [vm_compute; reflexivity|].
  intros a Ha Hn.
  assert (T : forallb (fun a => match a with ACode None => true | _ =>
              negb (isom_sound_entry MPolarRight Wide a) && negb (isom_sound_entry MPolarLeft Tall a) end) all_aargs = true)
    by (vm_compute; reflexivity).
  pose proof (forallb_In _ _ _ T a Ha) as E. cbn beta in E.
  destruct a as [|[c|]]; [| |congruence]; apply andb_true_iff in E; destruct E as [E1 E2];
    apply negb_true_iff in E1; apply negb_true_iff in E2; split; assumption.
Qed.

(* parse_method_absorb resolves to a registered driver and a table code *)
Definition registered (m : meth) : bool :=
  negb (meth_eqb m MAuto || meth_eqb m MLq || meth_eqb m MLqCholesky || meth_eqb m MEig).

Lemma parse_method_absorb_resolves : forall m a t, In m all_meths -> In a all_aargs ->
  registered (fst (parse_method_absorb m a t)) = true /\ code_in (snd (parse_method_absorb m a t)) all_codes = true.
Proof.
  intros m a t Hm Ha.
  assert (T : forallb (fun m => forallb (fun a => forallb (fun t =>
      registered (fst (parse_method_absorb m a t)) && code_in (snd (parse_method_absorb m a t)) all_codes)
      [true; false]) all_aargs) all_meths = true) by (vm_compute; reflexivity).
  pose proof (forallb_In _ _ _ (forallb_In _ _ _ (forallb_In _ _ _ T m Hm) a Ha) t) as E. cbn beta in E.
  assert (In t [true; false]) by (destruct t; cbn; tauto). apply E in H. apply andb_true_iff in H. exact H.
Qed.

(* ------------------------------------------------ functools.cache on options *)

Definition pure_run (calls : list (cmode * pyval)) : list Z := map (fun k => parse_renorm (fst k) (snd k)) calls.

(* a history is collision-free when keys that the cache considers equal produce the same options *)
Definition collision_free (calls : list (cmode * pyval)) : Prop :=
  forall k1 k2, In k1 calls -> In k2 calls -> key_eqb k1 k2 = true ->
  parse_renorm (fst k1) (snd k1) = parse_renorm (fst k2) (snd k2).

Lemma cached_run_inv : forall calls c,
  (forall k v, In (k, v) c -> v = parse_renorm (fst k) (snd k)) ->
  (forall k v k', In (k, v) c -> In k' calls -> key_eqb k k' = true ->
     parse_renorm (fst k) (snd k) = parse_renorm (fst k') (snd k')) ->
  collision_free calls ->
  cached_run c calls = pure_run calls.
Proof.
  induction calls as [|k r IH]; intros c Hval Hcomp Hfree; [reflexivity|].
  cbn [cached_run pure_run map]. unfold cached_call.
  destruct (cache_find c k) eqn:F.
  - (* hit *)
    assert (Hhit : exists k0, In (k0, z) c /\ key_eqb k0 k = true).
    { clear - F. induction c as [|[k' v] c' IHc]; [discriminate|]. cbn [cache_find] in F.
      destruct (key_eqb k' k) eqn:E.
      - inversion F; subst. exists k'. split; [left; reflexivity|exact E].
      - destruct (IHc F) as [k0 [A B]]. exists k0. split; [right; exact A|exact B]. }
    destruct Hhit as [k0 [Hin Hk]].
    f_equal.
    + rewrite (Hval _ _ Hin). apply (Hcomp k0 z k Hin); [left; reflexivity|exact Hk].
    + apply IH.
      * exact Hval.
      * intros k1 v k' H1 H2. apply (Hcomp k1 v k' H1). right; exact H2.
      * intros k1 k2 H1 H2. apply Hfree; right; assumption.
  - (* miss *)
    f_equal. apply IH.
    + intros k1 v H. apply in_app_or in H. destruct H as [H|[H|[]]]; [apply Hval; exact H|]. inversion H; subst. reflexivity.
    + intros k1 v k' H H2 E. apply in_app_or in H. destruct H as [H|[H|[]]].
      * apply (Hcomp k1 v k' H); [right; exact H2|exact E].
      * inversion H; subst. apply Hfree; [left; reflexivity|right; exact H2|exact E].
    + intros k1 k2 H1 H2. apply Hfree; right; assumption.
Qed.

Lemma cache_transparent_if_collision_free : forall calls, collision_free calls -> cached_run [] calls = pure_run calls.
Proof. intros calls H. apply cached_run_inv; [intros ? ? []|intros ? ? ? []|exact H]. Qed.

(* with typed keys, equal keys are identical calls: every history is collision free *)
Lemma cmode_code_inj : forall a b, cmode_code a = cmode_code b -> a = b.
Proof. intros [] []; cbn; intro H; try reflexivity; discriminate H. Qed.

Lemma key_eqb_eq : forall k1 k2, key_eqb k1 k2 = true -> k1 = k2.
Proof.
  intros [m1 v1] [m2 v2]. unfold key_eqb. cbn [fst snd]. intro H. apply andb_true_iff in H. destruct H as [Hm Hv].
  apply Z.eqb_eq in Hm. apply cmode_code_inj in Hm. subst m2. f_equal.
  destruct v1, v2; cbn in Hv; try discriminate Hv; try reflexivity.
  - apply Bool.eqb_prop in Hv. congruence.
  - apply Z.eqb_eq in Hv. congruence.
Qed.

Lemma cache_transparent : forall calls, cached_run [] calls = pure_run calls.
Proof.
  intros calls. apply cache_transparent_if_collision_free.
  intros k1 k2 _ _ H. apply key_eqb_eq in H. subst. reflexivity.
Qed.
